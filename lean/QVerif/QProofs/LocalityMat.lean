import QProofs.LocalityQsv
import QProofs.PipeUpdate
/-!
# C19 — the materialisation loop `Mat.generate` is local

The loop visits the subgraphs one after the other, threading the (private copy of the) statistics and
the result dictionary.  With model-wide unique tensor names

* the walk over another subgraph `k ≠ j` neither reads nor writes the statistics at a name of subgraph
  `j`, and adds no entry for a name of subgraph `j` to the dictionary;
* the walk over subgraph `j` is the walk of the extracted model over its only subgraph, on the
  dictionary restricted to the names of subgraph `j`.

Hence the dictionary of the big run, restricted to the names of subgraph `j`, IS the dictionary of the
stand-alone run (`generateCore_local`).  `Mat.generate` then runs the buffer-sharing check on its
own dictionary; that check looks at the whole model and is the one place where the two runs can
differ (`generate_local`).
-/
open Graph Mat Cfg Pipe GenInstsOK

namespace Locality

/-! ## the extracted environment -/

/-- the environment of the extracted single-subgraph model: same constant data; the `adj_y` flags of
    subgraph `j`, re-indexed to subgraph 0 -/
def extractEnv (env : Env) (j : Nat) (sg : Subgraph) : Env :=
  { model := extract env.model j sg, consts := env.consts,
    adjY := (env.adjY.filter (·.1 == j)).map fun p => (0, p.2) }

/-- the requests that name a tensor of `sg` (order kept) -/
def restrictCReqs (reqs : List CReq) (sg : Subgraph) : List CReq := reqs.filter fun r => nameIn sg r.name

theorem adjY_extract (l : List (Nat × Nat)) (j : Nat) (o : Int) :
    (((l.filter (·.1 == j)).map fun p => ((0 : Nat), p.2) : List (Nat × Nat))).any
        (fun p => p.1 == 0 && (p.2 : Int) == o) =
      l.any (fun p => p.1 == j && (p.2 : Int) == o) := by
  induction l with
  | nil => rfl
  | cons a as ih =>
    by_cases ha : (a.1 == j) = true
    · simp only [List.filter_cons, ha, if_true, List.map_cons, List.any_cons, ih, beq_self_eq_true, Bool.true_and]
    · simp only [List.filter_cons, ha, Bool.false_eq_true, if_false, List.any_cons, ih, Bool.false_and, Bool.false_or]

theorem envEq_extract (env : Env) (j : Nat) (sg : Subgraph) (oi : OpInfo) (hoi : oi.sgIdx = j) :
    EnvEq env (extractEnv env j sg) oi { oi with sgIdx := 0 } := by
  refine ⟨rfl, rfl, ?_, rfl, rfl, rfl, rfl⟩
  unfold opAdjY extractEnv
  simp only [hoi]
  exact adjY_extract env.adjY j oi.opId

/-- one operator of subgraph `j`: the extracted environment computes the same thing -/
theorem opReqs_env (rx : String → String → Bool) (env : Env) (st : Recipe.State) (j : Nat) (sg : Subgraph)
    (qs : Qsvs) (q : Op × Option String × Int) :
    opReqs rx (extractEnv env j sg) st 0 sg qs q = opReqs rx env st j sg qs q := by
  unfold opReqs
  have hk : keyOf (extractEnv env j sg) q = keyOf env q := rfl
  rw [hk]
  have hm : ∀ k scope fn, materializeOp (extractEnv env j sg) sg qs
      { sgIdx := 0, op := q.1, opName := k, opId := q.2.2, cfg := (Recipe.resolve rx st k scope).2 }
      (Recipe.resolve rx st k scope).1 fn =
    materializeOp env sg qs
      { sgIdx := j, op := q.1, opName := k, opId := q.2.2, cfg := (Recipe.resolve rx st k scope).2 }
      (Recipe.resolve rx st k scope).1 fn := by
    intro k scope fn
    exact materializeOp_env (envEq_extract env j sg
      { sgIdx := j, op := q.1, opName := k, opId := q.2.2, cfg := (Recipe.resolve rx st k scope).2 } rfl) sg qs _ fn
  simp only [hm]

/-! ## one operator: statistics and names -/

theorem opReqs_replay (rx : String → String → Bool) (env : Env) (st : Recipe.State) (s : Nat) (sg : Subgraph)
    (qs qs1 : Qsvs) (hag : Agree (nameIn sg) qs qs1) (q : Op × Option String × Int) :
    Replay (nameIn sg) qs qs1 (opReqs rx env st s sg qs q) (opReqs rx env st s sg qs1 q) := by
  have nq : Replay (nameIn sg) qs qs1
      (match noQuantOp sg q.1 q.2.2 with | .error e => .error e | .ok r => .ok (r, qs))
      (match noQuantOp sg q.1 q.2.2 with | .error e => .error e | .ok r => .ok (r, qs1)) := by
    intro rs q' h
    cases hn : noQuantOp sg q.1 q.2.2 with
    | error e => rw [hn] at h; cases h
    | ok r =>
      rw [hn] at h
      simp only [Except.ok.injEq, Prod.mk.injEq] at h
      obtain ⟨rfl, rfl⟩ := h
      exact ⟨[], by simp, rfl, rfl⟩
  unfold opReqs
  cases keyOf env q with
  | error e => exact Replay.error _ _
  | ok key =>
    cases key with
    | none => exact nq
    | some k =>
      simp only []
      cases opScope sg q.1 with
      | error e => exact Replay.error _ _
      | ok scope =>
        simp only []
        refine Replay.ite _ (fun _ => nq) (fun _ => ?_)
        cases Py.dictGet? Tables.registry (Recipe.resolve rx st k scope).1 with
        | none => exact Replay.error _ _
        | some ops =>
          simp only []
          cases Py.dictGet? ops k with
          | none => exact Replay.error _ _
          | some fn => exact materializeOp_replay env sg hag _ _ fn

theorem opReqs_names (rx : String → String → Bool) (env : Env) (st : Recipe.State) (s : Nat) (sg : Subgraph)
    (qs : Qsvs) (q : Op × Option String × Int) : NamesOK sg (opReqs rx env st s sg qs q) := by
  have nq : NamesOK sg (match noQuantOp sg q.1 q.2.2 with | .error e => .error e | .ok r => .ok (r, qs)) := by
    intro rs q' h
    cases hn : noQuantOp sg q.1 q.2.2 with
    | error e => rw [hn] at h; cases h
    | ok r =>
      rw [hn] at h
      simp only [Except.ok.injEq, Prod.mk.injEq] at h
      obtain ⟨rfl, rfl⟩ := h
      exact noQuantOp_names sg q.1 q.2.2 r hn
  unfold opReqs
  cases keyOf env q with
  | error e => exact NamesOK.error _
  | ok key =>
    cases key with
    | none => exact nq
    | some k =>
      simp only []
      cases opScope sg q.1 with
      | error e => exact NamesOK.error _
      | ok scope =>
        simp only []
        refine NamesOK.ite _ (fun _ => nq) (fun _ => ?_)
        cases Py.dictGet? Tables.registry (Recipe.resolve rx st k scope).1 with
        | none => exact NamesOK.error _
        | some ops =>
          simp only []
          cases Py.dictGet? ops k with
          | none => exact NamesOK.error _
          | some fn => exact materializeOp_names env sg qs _ _ fn


/-! ## dictionaries restricted to a set of keys -/

section Dict
variable {ν : Type} (N : String → Bool)

/-- the entries whose key is in `N` -/
def keep (d : List (String × ν)) : List (String × ν) := d.filter fun e => N e.1

theorem dictGet?_keep (d : List (String × ν)) (n : String) (hn : N n = true) :
    Py.dictGet? (keep N d) n = Py.dictGet? d n := by
  induction d with
  | nil => rfl
  | cons e d ih =>
    by_cases he : N e.1 = true
    · have h1 : keep N (e :: d) = e :: keep N d := by simp only [keep, List.filter_cons, he, if_true]
      rw [h1]
      unfold Py.dictGet? at ih ⊢
      simp only [List.find?_cons]
      split
      · rfl
      · exact ih
    · have h1 : keep N (e :: d) = keep N d := by
        simp only [keep, List.filter_cons, he, Bool.false_eq_true, if_false]
      rw [h1, ih]
      have hne : (e.1 == n) = false := by
        rw [beq_eq_false_iff_ne]
        intro h
        rw [h] at he
        exact he hn
      unfold Py.dictGet?
      simp only [List.find?_cons, hne]

theorem keep_dictSet_in (d : List (String × ν)) (k : String) (v : ν) (hk : N k = true) :
    keep N (Py.dictSet d k v) = Py.dictSet (keep N d) k v := by
  induction d with
  | nil => simp only [Py.dictSet, keep, List.filter_cons, hk, if_true, List.filter_nil]
  | cons e d ih =>
    obtain ⟨k', v'⟩ := e
    by_cases hkk : (k' == k) = true
    · have hk' : k' = k := eq_of_beq hkk
      subst hk'
      simp only [Py.dictSet, keep, beq_self_eq_true, if_true, List.filter_cons, hk]
    · have hkk' : (k' == k) = false := by simpa using hkk
      by_cases he : N k' = true
      · simp only [keep] at ih
        simp only [Py.dictSet, keep, hkk', Bool.false_eq_true, if_false, List.filter_cons, he, if_true, ih]
      · simp only [keep] at ih
        simp only [Py.dictSet, keep, hkk', Bool.false_eq_true, if_false, List.filter_cons, he, ih]

theorem keep_dictSet_out (d : List (String × ν)) (k : String) (v : ν) (hk : N k = false) :
    keep N (Py.dictSet d k v) = keep N d := by
  induction d with
  | nil => simp only [Py.dictSet, keep, List.filter_cons, hk, Bool.false_eq_true, if_false, List.filter_nil]
  | cons e d ih =>
    obtain ⟨k', v'⟩ := e
    by_cases hkk : (k' == k) = true
    · have hk' : k' = k := eq_of_beq hkk
      subst hk'
      simp only [Py.dictSet, keep, beq_self_eq_true, if_true, List.filter_cons, hk, Bool.false_eq_true, if_false]
    · have hkk' : (k' == k) = false := by simpa using hkk
      simp only [keep] at ih
      by_cases he : N k' = true
      · simp only [Py.dictSet, keep, hkk', Bool.false_eq_true, if_false, List.filter_cons, he, if_true, ih]
      · simp only [Py.dictSet, keep, hkk', Bool.false_eq_true, if_false, List.filter_cons, he, ih]

theorem keep_append_in (d : List (String × ν)) (e : String × ν) (he : N e.1 = true) :
    keep N (d ++ [e]) = keep N d ++ [e] := by
  simp only [keep, List.filter_append, List.filter_cons, he, if_true, List.filter_nil]

theorem keep_append_out (d : List (String × ν)) (e : String × ν) (he : N e.1 = false) :
    keep N (d ++ [e]) = keep N d := by
  simp only [keep, List.filter_append, List.filter_cons, he, Bool.false_eq_true, if_false, List.filter_nil,
    List.append_nil]

end Dict

/-! ## `updateResults` on the restricted dictionary -/

theorem stepF_in (N : String → Bool) (res res' : List (String × CReq)) (r : CReq) (hr : N r.name = true)
    (h : stepF res r = .ok res') : stepF (keep N res) r = .ok (keep N res') := by
  unfold stepF at h ⊢
  rw [dictGet?_keep N res r.name hr]
  cases hg : Py.dictGet? res r.name with
  | none =>
    rw [hg] at h
    simp only [pure, Except.pure, Except.ok.injEq] at h ⊢
    rw [← h, keep_append_in N res (r.name, r) hr]
  | some cur =>
    rw [hg] at h
    simp only [] at h ⊢
    split at h
    · cases h
    · simp only [pure, Except.pure, Except.ok.injEq] at h ⊢
      rw [← h, keep_dictSet_in N res r.name _ hr]

theorem stepF_out (N : String → Bool) (res res' : List (String × CReq)) (r : CReq) (hr : N r.name = false)
    (h : stepF res r = .ok res') : keep N res' = keep N res := by
  unfold stepF at h
  cases hg : Py.dictGet? res r.name with
  | none =>
    rw [hg] at h
    simp only [pure, Except.pure, Except.ok.injEq] at h
    rw [← h, keep_append_out N res (r.name, r) hr]
  | some cur =>
    rw [hg] at h
    simp only [] at h
    split at h
    · cases h
    · simp only [pure, Except.pure, Except.ok.injEq] at h
      rw [← h, keep_dictSet_out N res r.name _ hr]

theorem updateResults_in (N : String → Bool) : ∀ (rs : List CReq) (res res' : List (String × CReq)),
    (∀ r ∈ rs, N r.name = true) → updateResults res rs = .ok res' →
    updateResults (keep N res) rs = .ok (keep N res') := by
  intro rs
  induction rs with
  | nil =>
    intro res res' _ h
    simp only [updateResults_eq, List.foldlM_nil, pure, Except.pure, Except.ok.injEq] at h ⊢
    rw [h]
  | cons r rs ih =>
    intro res res' hrs h
    rw [updateResults_eq, List.foldlM_cons] at h ⊢
    obtain ⟨res2, h2, h⟩ := GraphInv.bind_ok _ _ _ h
    rw [stepF_in N res res2 r (hrs r List.mem_cons_self) h2]
    exact ih res2 res' (fun r' hr' => hrs r' (List.mem_cons_of_mem _ hr')) h

theorem updateResults_out (N : String → Bool) : ∀ (rs : List CReq) (res res' : List (String × CReq)),
    (∀ r ∈ rs, N r.name = false) → updateResults res rs = .ok res' → keep N res' = keep N res := by
  intro rs
  induction rs with
  | nil =>
    intro res res' _ h
    simp only [updateResults_eq, List.foldlM_nil, pure, Except.pure, Except.ok.injEq] at h
    rw [h]
  | cons r rs ih =>
    intro res res' hrs h
    rw [updateResults_eq, List.foldlM_cons] at h
    obtain ⟨res2, h2, h⟩ := GraphInv.bind_ok _ _ _ h
    rw [ih res2 res' (fun r' hr' => hrs r' (List.mem_cons_of_mem _ hr')) h]
    exact stepF_out N res res2 r (hrs r List.mem_cons_self) h2

/-- every key of the dictionary is the name of its request -/
def KeyName (res : List (String × CReq)) : Prop := ∀ e ∈ res, e.2.name = e.1

theorem stepF_keyName (res res' : List (String × CReq)) (r : CReq) (hk : KeyName res)
    (h : stepF res r = .ok res') : KeyName res' := by
  unfold stepF at h
  cases hg : Py.dictGet? res r.name with
  | none =>
    rw [hg] at h
    simp only [pure, Except.pure, Except.ok.injEq] at h
    subst h
    intro e he
    rcases List.mem_append.1 he with he | he
    · exact hk e he
    · rw [List.mem_singleton.1 he]
  | some cur =>
    rw [hg] at h
    simp only [] at h
    have hcur : cur.name = r.name := hk (r.name, cur) (dictGet?_mem_key _ _ _ hg)
    split at h
    · cases h
    · simp only [pure, Except.pure, Except.ok.injEq] at h
      subst h
      intro e he
      rcases CalibProofs.mem_dictSet _ _ _ _ he with he | he
      · exact hk e he
      · rw [he]; exact hcur

theorem updateResults_keyName : ∀ (rs : List CReq) (res res' : List (String × CReq)), KeyName res →
    updateResults res rs = .ok res' → KeyName res' := by
  intro rs
  induction rs with
  | nil =>
    intro res res' hk h
    simp only [updateResults_eq, List.foldlM_nil, pure, Except.pure, Except.ok.injEq] at h
    rw [← h]; exact hk
  | cons r rs ih =>
    intro res res' hk h
    rw [updateResults_eq, List.foldlM_cons] at h
    obtain ⟨res2, h2, h⟩ := GraphInv.bind_ok _ _ _ h
    exact ih res2 res' (stepF_keyName res res2 r hk h2) h


/-! ## one operator, one subgraph -/

/-- a step of the walk over subgraph `j` is a step of the stand-alone walk -/
theorem opStep_same (rx : String → String → Bool) (env : Env) (st : Recipe.State) (j : Nat) (sg : Subgraph)
    (s s' : GState) (qs1 : Qsvs) (q : Op × Option String × Int) (hag : Agree (nameIn sg) s.1 qs1)
    (h : opStep rx env st j sg s q = .ok s') :
    ∃ qs1', opStep rx (extractEnv env j sg) st 0 sg (qs1, keep (nameIn sg) s.2) q =
        .ok (qs1', keep (nameIn sg) s'.2) ∧ Agree (nameIn sg) s'.1 qs1' := by
  unfold opStep at h ⊢
  cases ho : opReqs rx env st j sg s.1 q with
  | error e => rw [ho] at h; cases h
  | ok v =>
    obtain ⟨rs, qs'⟩ := v
    rw [ho] at h
    simp only [] at h
    cases hu : updateResults s.2 rs with
    | error e => rw [hu] at h; cases h
    | ok res' =>
      rw [hu] at h
      simp only [Except.ok.injEq] at h
      subst h
      obtain ⟨w, hw, rfl, ho1⟩ := opReqs_replay rx env st j sg s.1 qs1 hag q rs qs' ho
      have hnames := opReqs_names rx env st j sg s.1 q rs _ ho
      refine ⟨applyW w qs1, ?_, hag.applyW w⟩
      simp only [opReqs_env, ho1, updateResults_in (nameIn sg) rs s.2 res' hnames hu]

/-- a step of the walk over another subgraph does not touch the names of subgraph `j` -/
theorem opStep_other (rx : String → String → Bool) (env : Env) (st : Recipe.State) (k : Nat) (sgk sg : Subgraph)
    (hdis : ∀ n, nameIn sgk n = true → nameIn sg n = false)
    (s s' : GState) (q : Op × Option String × Int) (h : opStep rx env st k sgk s q = .ok s') :
    Agree (nameIn sg) s.1 s'.1 ∧ keep (nameIn sg) s'.2 = keep (nameIn sg) s.2 := by
  unfold opStep at h
  cases ho : opReqs rx env st k sgk s.1 q with
  | error e => rw [ho] at h; cases h
  | ok v =>
    obtain ⟨rs, qs'⟩ := v
    rw [ho] at h
    simp only [] at h
    cases hu : updateResults s.2 rs with
    | error e => rw [hu] at h; cases h
    | ok res' =>
      rw [hu] at h
      simp only [Except.ok.injEq] at h
      subst h
      obtain ⟨w, hw, rfl, -⟩ := opReqs_replay rx env st k sgk s.1 s.1 (Agree.refl _ _) q rs qs' ho
      have hnames := opReqs_names rx env st k sgk s.1 q rs _ ho
      refine ⟨?_, updateResults_out (nameIn sg) rs s.2 res' (fun r hr => hdis _ (hnames r hr)) hu⟩
      intro n hn
      have hnk : nameIn sgk n = false := by
        cases hc : nameIn sgk n with
        | false => rfl
        | true => rw [hdis n hc] at hn; cases hn
      exact (applyW_frame w hw n hnk s.1).symm

theorem sgStep_same (rx : String → String → Bool) (env : Env) (st : Recipe.State) (j : Nat) (sg : Subgraph) :
    ∀ (ops : List (Op × Option String × Int)) (s s' : GState) (qs1 : Qsvs), Agree (nameIn sg) s.1 qs1 →
      ops.foldlM (opStep rx env st j sg) s = .ok s' →
      ∃ qs1', ops.foldlM (opStep rx (extractEnv env j sg) st 0 sg) (qs1, keep (nameIn sg) s.2) =
          .ok (qs1', keep (nameIn sg) s'.2) ∧ Agree (nameIn sg) s'.1 qs1' := by
  intro ops
  induction ops with
  | nil =>
    intro s s' qs1 hag h
    simp only [List.foldlM_nil, pure, Except.pure, Except.ok.injEq] at h
    subst h
    exact ⟨qs1, rfl, hag⟩
  | cons q ops ih =>
    intro s s' qs1 hag h
    rw [List.foldlM_cons] at h ⊢
    obtain ⟨s2, h2, h⟩ := GraphInv.bind_ok _ _ _ h
    obtain ⟨qs2, h2', hag2⟩ := opStep_same rx env st j sg s s2 qs1 q hag h2
    rw [h2']
    exact ih s2 s' qs2 hag2 h

theorem sgStep_other (rx : String → String → Bool) (env : Env) (st : Recipe.State) (k : Nat) (sgk sg : Subgraph)
    (hdis : ∀ n, nameIn sgk n = true → nameIn sg n = false) :
    ∀ (ops : List (Op × Option String × Int)) (s s' : GState),
      ops.foldlM (opStep rx env st k sgk) s = .ok s' →
      Agree (nameIn sg) s.1 s'.1 ∧ keep (nameIn sg) s'.2 = keep (nameIn sg) s.2 := by
  intro ops
  induction ops with
  | nil =>
    intro s s' h
    simp only [List.foldlM_nil, pure, Except.pure, Except.ok.injEq] at h
    subst h
    exact ⟨Agree.refl _ _, rfl⟩
  | cons q ops ih =>
    intro s s' h
    rw [List.foldlM_cons] at h
    obtain ⟨s2, h2, h⟩ := GraphInv.bind_ok _ _ _ h
    obtain ⟨a1, a2⟩ := opStep_other rx env st k sgk sg hdis s s2 q h2
    obtain ⟨b1, b2⟩ := ih s2 s' h
    exact ⟨a1.trans b1, b2.trans a2⟩

/-- the walk over a list of other subgraphs -/
theorem walk_other (rx : String → String → Bool) (env : Env) (st : Recipe.State) (sg : Subgraph) :
    ∀ (l : List (Subgraph × Nat)), (∀ p ∈ l, ∀ n, nameIn p.1 n = true → nameIn sg n = false) →
      ∀ (s s' : GState), l.foldlM (sgStep rx env st) s = .ok s' →
      Agree (nameIn sg) s.1 s'.1 ∧ keep (nameIn sg) s'.2 = keep (nameIn sg) s.2 := by
  intro l
  induction l with
  | nil =>
    intro _ s s' h
    simp only [List.foldlM_nil, pure, Except.pure, Except.ok.injEq] at h
    subst h
    exact ⟨Agree.refl _ _, rfl⟩
  | cons p l ih =>
    intro hl s s' h
    rw [List.foldlM_cons] at h
    obtain ⟨s2, h2, h⟩ := GraphInv.bind_ok _ _ _ h
    obtain ⟨a1, a2⟩ := sgStep_other rx env st p.2 p.1 sg (hl p List.mem_cons_self) _ s s2 h2
    obtain ⟨b1, b2⟩ := ih (fun p' hp' => hl p' (List.mem_cons_of_mem _ hp')) s2 s' h
    exact ⟨a1.trans b1, b2.trans a2⟩


/-! ## `Mat.generate` as checks + nested fold + buffer-sharing check -/

/-- the nested fold of `generate` -/
def generateCore (rx : String → String → Bool) (env : Env) (st : Recipe.State) (qsvs : Option Qsvs) : PyM GState :=
  env.model.subgraphs.zipIdx.foldlM (sgStep rx env st) (qsvs.getD [], [])

theorem generate_eq (rx : String → String → Bool) (env : Env) (st : Recipe.State) (qsvs : Option Qsvs) :
    Mat.generate rx env st qsvs =
      if env.model.subgraphs.any (fun sg => sg.tensors.any (·.quant.isSome)) then .error .valueError
      else if !(env.model.subgraphs.flatMap fun sg => sg.tensors.map (·.name)).Nodup then .error .valueError
      else if Recipe.needCalibration st && qsvs.isNone then .error .runtimeError
      else match generateCore rx env st qsvs with
        | .error e => .error e
        | .ok s => match checkBufferSharing env.model s.2 with
          | .error e => .error e
          | .ok _ => match checkUnreadOwn env.model s.2 with
            | .error e => .error e
            | .ok _ => .ok (s.2.map (·.2)) := by
  unfold Mat.generate generateCore
  simp only [bind, Except.bind, pure, Except.pure, throw, throwThe, MonadExceptOf.throw]
  split
  · rfl
  split
  · rfl
  split
  · rfl
  rw [CalibProofs.forIn_eq_foldlM _ (sgStep rx env st)]
  · cases hf : List.foldlM (sgStep rx env st) (qsvs.getD [], []) env.model.subgraphs.zipIdx with
    | error e => rfl
    | ok v =>
      obtain ⟨qs, res⟩ := v
      simp only []
      cases hc : checkBufferSharing env.model res with
      | error e => rfl
      | ok u =>
        simp only []
        cases hc2 : checkUnreadOwn env.model res with
        | error e => rfl
        | ok u2 => rfl
  · intro p s
    obtain ⟨sg, sIdx⟩ := p
    obtain ⟨qs0, res0⟩ := s
    simp only [sgStep]
    rw [CalibProofs.forIn_eq_foldlM _ (opStep rx env st sIdx sg)]
    · simp only [allOps, List.map_cons, List.map_nil, bind, Except.bind, pure, Except.pure]
    · intro q s
      obtain ⟨op, io, opId⟩ := q
      obtain ⟨qs, res⟩ := s
      simp only [opStep, opReqs, keyOf, pure, Except.pure, bind, Except.bind, throw, throwThe,
        MonadExceptOf.throw]
      cases io with
      | some k =>
        simp only []
        cases opScope sg op with
        | error e => rfl
        | ok scope =>
          simp only []
          by_cases h1 : ((Recipe.resolve rx st k scope).1 == Tables.algNoQuantize) = true
          · simp only [if_pos h1]
            cases noQuantOp sg op opId with
            | error e => rfl
            | ok r => simp only []; cases updateResults res r <;> rfl
          · simp only [if_neg h1]
            cases Py.dictGet? Tables.registry (Recipe.resolve rx st k scope).1 with
            | none => rfl
            | some ops =>
              simp only []
              cases Py.dictGet? ops k with
              | none => rfl
              | some fn =>
                simp only []
                cases materializeOp env sg qs
                    { sgIdx := sIdx, op := op, opName := k, opId := opId, cfg := (Recipe.resolve rx st k scope).2 }
                    (Recipe.resolve rx st k scope).1 fn with
                | error e => rfl
                | ok v => obtain ⟨r, qs'⟩ := v; simp only []; cases updateResults res r <;> rfl
      | none =>
        simp only []
        cases env.model.opcodes[op.code]? with
        | none => rfl
        | some code =>
          simp only []
          cases opNameOfCode code with
          | none =>
            simp only []
            cases noQuantOp sg op opId with
            | error e => rfl
            | ok r => simp only []; cases updateResults res r <;> rfl
          | some k =>
            simp only []
            cases opScope sg op with
            | error e => rfl
            | ok scope =>
              simp only []
              by_cases h1 : ((Recipe.resolve rx st k scope).1 == Tables.algNoQuantize) = true
              · simp only [if_pos h1]
                cases noQuantOp sg op opId with
                | error e => rfl
                | ok r => simp only []; cases updateResults res r <;> rfl
              · simp only [if_neg h1]
                cases Py.dictGet? Tables.registry (Recipe.resolve rx st k scope).1 with
                | none => rfl
                | some ops =>
                  simp only []
                  cases Py.dictGet? ops k with
                  | none => rfl
                  | some fn =>
                    simp only []
                    cases materializeOp env sg qs
                        { sgIdx := sIdx, op := op, opName := k, opId := opId, cfg := (Recipe.resolve rx st k scope).2 }
                        (Recipe.resolve rx st k scope).1 fn with
                    | error e => rfl
                    | ok v => obtain ⟨r, qs'⟩ := v; simp only []; cases updateResults res r <;> rfl

/-! ## the walk over all subgraphs -/

theorem zipIdx_split {α} (l : List α) (j : Nat) (a : α) (h : l[j]? = some a) :
    ∃ pre post, l.zipIdx = pre ++ (a, j) :: post ∧ ∀ p ∈ pre ++ post, p.2 ≠ j ∧ l[p.2]? = some p.1 := by
  obtain ⟨hj, rfl⟩ := List.getElem?_eq_some_iff.1 h
  have hjz : j < l.zipIdx.length := by simpa using hj
  refine ⟨l.zipIdx.take j, l.zipIdx.drop (j + 1), ?_, ?_⟩
  · have h1 : l.zipIdx = l.zipIdx.take j ++ l.zipIdx.drop j := (List.take_append_drop j _).symm
    have h2 : l.zipIdx.drop j = l.zipIdx[j] :: l.zipIdx.drop (j + 1) := List.drop_eq_getElem_cons hjz
    have h3 : l.zipIdx[j] = (l[j], j) := by simp
    rw [h2, h3] at h1
    exact h1
  · intro p hp
    have hmem : p ∈ l.zipIdx := by
      rcases List.mem_append.1 hp with hp | hp
      · exact List.mem_of_mem_take hp
      · exact List.mem_of_mem_drop hp
    refine ⟨?_, List.mem_zipIdx_iff_getElem?.1 hmem⟩
    rcases List.mem_append.1 hp with hp | hp
    · obtain ⟨i, hi, rfl⟩ := List.mem_take_iff_getElem.1 hp
      simp only [List.getElem_zipIdx]
      omega
    · obtain ⟨i, hi, rfl⟩ := List.mem_drop_iff_getElem.1 hp
      simp only [List.getElem_zipIdx]
      omega

/-- with unique names, the names of two different subgraphs are disjoint -/
theorem names_disjoint (m : Model) (hnu : namesUnique m) (j k : Nat) (sg sgk : Subgraph)
    (hsg : m.subgraphs[j]? = some sg) (hsgk : m.subgraphs[k]? = some sgk) (hkj : k ≠ j) :
    ∀ n, nameIn sgk n = true → nameIn sg n = false := by
  intro n hn
  cases hc : nameIn sg n with
  | false => rfl
  | true =>
    obtain ⟨a, t, ht, htn⟩ := (nameIn_iff sgk n).1 hn
    obtain ⟨b, t', ht', htn'⟩ := (nameIn_iff sg n).1 hc
    exact absurd (loc_unique m hnu n k j sgk sg a b ⟨hsgk, t, ht, htn⟩ ⟨hsg, t', ht', htn'⟩).1 hkj

theorem foldlM_inv {α β} (f : β → α → PyM β) (P : β → Prop) : ∀ (l : List α) (init r : β), P init →
    (∀ x ∈ l, ∀ s s', P s → f s x = .ok s' → P s') → l.foldlM f init = .ok r → P r := by
  intro l
  induction l with
  | nil =>
    intro init r h0 _ h
    simp only [List.foldlM_nil, pure, Except.pure, Except.ok.injEq] at h
    subst h; exact h0
  | cons a as ih =>
    intro init r h0 hstep h
    rw [List.foldlM_cons] at h
    obtain ⟨s2, h2, h⟩ := GraphInv.bind_ok _ _ _ h
    exact ih s2 r (hstep a List.mem_cons_self init s2 h0 h2)
      (fun x hx s s' hs hf => hstep x (List.mem_cons_of_mem _ hx) s s' hs hf) h

theorem generateCore_keyName (rx : String → String → Bool) (env : Env) (st : Recipe.State) (qsvs : Option Qsvs)
    (s : GState) (h : generateCore rx env st qsvs = .ok s) : KeyName s.2 := by
  unfold generateCore at h
  refine foldlM_inv _ (fun s : GState => KeyName s.2) _ _ _ (by intro e he; cases he) ?_ h
  intro p _ s s' hs hp
  unfold sgStep at hp
  refine foldlM_inv _ (fun s : GState => KeyName s.2) _ _ _ hs ?_ hp
  intro q _ s s' hs hq
  unfold opStep at hq
  cases ho : opReqs rx env st p.2 p.1 s.1 q with
  | error e => rw [ho] at hq; cases hq
  | ok v =>
    rw [ho] at hq
    simp only [] at hq
    cases hu : updateResults s.2 v.1 with
    | error e => rw [hu] at hq; cases hq
    | ok res' =>
      rw [hu] at hq
      simp only [Except.ok.injEq] at hq
      subst hq
      exact updateResults_keyName v.1 s.2 res' hs hu

/-- **the dictionary of the big run, restricted to the names of subgraph `j`, is the dictionary of the
    stand-alone run** -/
theorem generateCore_local (rx : String → String → Bool) (env : Env) (st : Recipe.State) (qsvs : Option Qsvs)
    (hnu : namesUnique env.model) (j : Nat) (sg : Subgraph) (hsg : env.model.subgraphs[j]? = some sg)
    (s : GState) (h : generateCore rx env st qsvs = .ok s) :
    ∃ qs1, generateCore rx (extractEnv env j sg) st qsvs = .ok (qs1, keep (nameIn sg) s.2) := by
  unfold generateCore at h ⊢
  obtain ⟨pre, post, hsplit, hmem⟩ := zipIdx_split env.model.subgraphs j sg hsg
  have hdis : ∀ p ∈ pre ++ post, ∀ n, nameIn p.1 n = true → nameIn sg n = false := by
    intro p hp
    obtain ⟨h1, h2⟩ := hmem p hp
    exact names_disjoint env.model hnu j p.2 sg p.1 hsg h2 h1
  rw [hsplit, List.foldlM_append] at h
  obtain ⟨s1, hpre, h⟩ := GraphInv.bind_ok _ _ _ h
  rw [List.foldlM_cons] at h
  obtain ⟨s2, hj, hpost⟩ := GraphInv.bind_ok _ _ _ h
  obtain ⟨a1, a2⟩ := walk_other rx env st sg pre (fun p hp => hdis p (List.mem_append_left _ hp)) _ s1 hpre
  obtain ⟨b1, b2⟩ := walk_other rx env st sg post (fun p hp => hdis p (List.mem_append_right _ hp)) s2 s hpost
  have a2' : keep (nameIn sg) s1.2 = [] := a2
  unfold sgStep at hj
  obtain ⟨qs1, hsmall, _⟩ := sgStep_same rx env st j sg _ s1 s2 (qsvs.getD []) a1.symm hj
  rw [a2', ← b2] at hsmall
  refine ⟨qs1, ?_⟩
  show List.foldlM (sgStep rx (extractEnv env j sg) st) (qsvs.getD [], []) [(sg, 0)] = _
  rw [List.foldlM_cons]
  unfold sgStep
  simp only [hsmall, bind, Except.bind, List.foldlM_nil, pure, Except.pure]


/-! ## `Mat.generate` -/

theorem restrict_map (res : List (String × CReq)) (hk : KeyName res) (sg : Subgraph) :
    restrictCReqs (res.map (·.2)) sg = (keep (nameIn sg) res).map (·.2) := by
  induction res with
  | nil => rfl
  | cons e res ih =>
    have he : e.2.name = e.1 := hk e List.mem_cons_self
    have ih' := ih (fun e' he' => hk e' (List.mem_cons_of_mem _ he'))
    simp only [restrictCReqs, keep] at ih' ⊢
    simp only [List.map_cons, List.filter_cons, he]
    split
    · rw [List.map_cons, ih']
    · exact ih'

/-- **`Mat.generate` is local up to the buffer-sharing check** (form that exposes the dictionary).  If the big run succeeds, the
    stand-alone run on subgraph `j` computes the dictionary `res1` whose requests are exactly the
    requests of the big run for the tensors of subgraph `j` (same order), and then returns them
    unless ITS buffer-sharing check (on the extracted model) fails. -/
theorem generate_local_core (rx : String → String → Bool) (env : Env) (st : Recipe.State) (qsvs : Option Qsvs)
    (j : Nat) (sg : Subgraph) (hsg : env.model.subgraphs[j]? = some sg) (reqs : List CReq)
    (h : Mat.generate rx env st qsvs = .ok reqs) :
    ∃ res : List (String × CReq), (∃ qs, generateCore rx env st qsvs = .ok (qs, res)) ∧
      checkBufferSharing env.model res = .ok () ∧ checkUnreadOwn env.model res = .ok () ∧
      (keep (nameIn sg) res).map (·.2) = restrictCReqs reqs sg ∧
      Mat.generate rx (extractEnv env j sg) st qsvs =
        match checkBufferSharing (extract env.model j sg) (keep (nameIn sg) res) with
        | .error e => .error e
        | .ok _ => match checkUnreadOwn (extract env.model j sg) (keep (nameIn sg) res) with
          | .error e => .error e
          | .ok _ => .ok (restrictCReqs reqs sg) := by
  rw [generate_eq] at h
  split at h
  · cases h
  rename_i hq
  split at h
  · cases h
  rename_i hnd
  split at h
  · cases h
  rename_i hcal
  have hnu : namesUnique env.model := by simpa [namesUnique] using hnd
  cases hcore : generateCore rx env st qsvs with
  | error e => rw [hcore] at h; cases h
  | ok s =>
    rw [hcore] at h
    simp only [] at h
    cases hchk : checkBufferSharing env.model s.2 with
    | error e => rw [hchk] at h; cases h
    | ok u =>
      rw [hchk] at h
      simp only [] at h
      cases hchk2 : checkUnreadOwn env.model s.2 with
      | error e => rw [hchk2] at h; cases h
      | ok u2 =>
      rw [hchk2] at h
      simp only [Except.ok.injEq] at h
      subst h
      obtain ⟨qs1, hsmall⟩ := generateCore_local rx env st qsvs hnu j sg hsg s hcore
      have hk := generateCore_keyName rx env st qsvs s hcore
      refine ⟨s.2, ⟨s.1, rfl⟩, hchk, hchk2, (restrict_map s.2 hk sg).symm, ?_⟩
      rw [generate_eq]
      have c1 : ((extractEnv env j sg).model.subgraphs.any fun sg => sg.tensors.any (·.quant.isSome)) = false := by
        have : (sg.tensors.any (·.quant.isSome)) = false := by
          cases hc : sg.tensors.any (·.quant.isSome) with
          | false => rfl
          | true =>
            exfalso
            apply hq
            rw [List.any_eq_true]
            exact ⟨sg, List.mem_of_getElem? hsg, hc⟩
        simp only [extractEnv, extract, List.any_cons, List.any_nil, Bool.or_false, this]
      have c2 : ((extractEnv env j sg).model.subgraphs.flatMap fun sg => sg.tensors.map (·.name)).Nodup :=
        namesUnique_extract env.model hnu j sg hsg
      rw [c1]
      simp only [Bool.false_eq_true, if_false, c2, decide_true, Bool.not_true, hcal, hsmall,
        restrict_map s.2 hk sg]
      rfl

/-- **`Mat.generate` is local up to the buffer-sharing check.**  If the big run succeeds, the
    stand-alone run on subgraph `j` computes the dictionary `res1` whose requests are exactly the
    requests of the big run for the tensors of subgraph `j` (same order), and then returns them
    unless ITS buffer-sharing check (on the extracted model) fails. -/
theorem generate_local (rx : String → String → Bool) (env : Env) (st : Recipe.State) (qsvs : Option Qsvs)
    (j : Nat) (sg : Subgraph) (hsg : env.model.subgraphs[j]? = some sg) (reqs : List CReq)
    (h : Mat.generate rx env st qsvs = .ok reqs) :
    ∃ res1 : List (String × CReq), res1.map (·.2) = restrictCReqs reqs sg ∧
      Mat.generate rx (extractEnv env j sg) st qsvs =
        match checkBufferSharing (extract env.model j sg) res1 with
        | .error e => .error e
        | .ok _ => match checkUnreadOwn (extract env.model j sg) res1 with
          | .error e => .error e
          | .ok _ => .ok (restrictCReqs reqs sg) := by
  obtain ⟨res, _, _, _, h1, h2⟩ := generate_local_core rx env st qsvs j sg hsg reqs h
  exact ⟨_, h1, h2⟩

/-- if both runs succeed, the stand-alone run returns exactly the requests of the big run for the
    tensors of subgraph `j` -/
theorem generate_local_ok (rx : String → String → Bool) (env : Env) (st : Recipe.State) (qsvs : Option Qsvs)
    (j : Nat) (sg : Subgraph) (hsg : env.model.subgraphs[j]? = some sg) (reqs r1 : List CReq)
    (h : Mat.generate rx env st qsvs = .ok reqs)
    (h1 : Mat.generate rx (extractEnv env j sg) st qsvs = .ok r1) : r1 = restrictCReqs reqs sg := by
  obtain ⟨res1, _, heq⟩ := generate_local rx env st qsvs j sg hsg reqs h
  rw [heq] at h1
  split at h1
  · cases h1
  · split at h1
    · cases h1
    · cases h1; rfl

end Locality
