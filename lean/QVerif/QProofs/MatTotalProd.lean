import QProofs.MatTotalOps
import QProofs.CalibExact
/-!
# Producer requests: one per result slot, hence no `updateResults` conflict (C08, site (f))

`prodNames rs`: the names of the requests of `rs` that have a producer side, in order;
`outNames sg op`: the names of the tensors at the non-`-1` result slots of `op`, in order.
Every registered materialisation emits its producer requests in result-slot order
(`opReqs_prodNames`: `prodNames rs` is a sublist of `outNames`).
-/
open Graph Mat Arith Cfg Num Nd Pipe PipeNF GraphStep

set_option autoImplicit false

namespace MatTotal

def prodNames (rs : List CReq) : List String := (rs.filter (·.producer.isSome)).map (·.name)

def nameAt (sg : Subgraph) (a : Int) : Option String :=
  match tensorAt sg a with
  | .ok t => some t.name
  | .error _ => none

def outNames (sg : Subgraph) (op : Op) : List String := (op.outputs.filter (· != -1)).filterMap (nameAt sg)

theorem prodNames_append (a b : List CReq) : prodNames (a ++ b) = prodNames a ++ prodNames b := by
  simp [prodNames]

theorem prodNames_nil_of (rs : List CReq) (h : ∀ r ∈ rs, r.producer = none) : prodNames rs = [] := by
  unfold prodNames
  rw [List.filter_eq_nil_iff.2]
  · rfl
  · intro r hr
    rw [h r hr]
    simp

theorem prodNames_all (rs : List CReq) (h : ∀ r ∈ rs, r.producer.isSome = true) : prodNames rs = rs.map (·.name) := by
  unfold prodNames
  rw [List.filter_eq_self.2 h]

theorem cslots_map_fst (l : List Int) : (cslots l).map (·.1) = l.filter (· != -1) := by
  unfold cslots
  generalize 0 = n
  induction l generalizing n with
  | nil => rfl
  | cons a as ih =>
    rw [List.zipIdx_cons]
    by_cases ha : (a != -1) = true
    · simp only [List.filter_cons, ha, if_true, List.map_cons, ih (n + 1)]
    · simp only [List.filter_cons, ha, Bool.false_eq_true, if_false, ih (n + 1)]

theorem pointwise_cons {α β} {R : α → β → Prop} {a : α} {b : β} {l1 : List α} {l2 : List β}
    (h : Pointwise R (a :: l1) (b :: l2)) : R a b ∧ Pointwise R l1 l2 := by
  refine ⟨h.2 0 a b rfl rfl, by simpa using h.1, fun j x y hx hy => h.2 (j + 1) x y (by simpa using hx) (by simpa using hy)⟩

theorem pointwise_map_eq {α β γ} {R : α → β → Prop} (f : α → Option γ) (g : β → γ) :
    ∀ (l1 : List α) (l2 : List β), Pointwise R l1 l2 → (∀ a b, R a b → f a = some (g b)) →
      l1.filterMap f = l2.map g := by
  intro l1
  induction l1 with
  | nil =>
    intro l2 h _
    have : l2 = [] := List.length_eq_zero_iff.1 h.1.symm
    subst this; rfl
  | cons a as ih =>
    intro l2 h hf
    cases l2 with
    | nil => have := h.1; simp at this
    | cons b bs =>
      obtain ⟨hab, hrest⟩ := pointwise_cons h
      rw [List.filterMap_cons, hf a b hab, List.map_cons, ih bs hrest hf]

theorem wrapper_false_prod (env : Env) (qs : Qsvs) (oi : OpInfo) (t : Tensor) (g : Option Param) (r : CReq)
    (h : wrapper env qs oi t false g = .ok r) : r.producer.isSome = true := by
  obtain ⟨p, hp⟩ := Locality.wrapper_mkReq env qs oi t false g r h
  obtain ⟨xfs, _, hr⟩ := mkReq_spec _ _ _ _ _ _ hp
  simp only [Bool.false_eq_true, if_false] at hr
  subst hr
  rfl

/-- **`standardOp`: the producer requests are exactly the requests of the result slots, in order** -/
theorem standardOp_prodNames (env : Env) (sg : Subgraph) (qs : Qsvs) (oi : OpInfo) (con : Constraint) (gi go : List Nat)
    (rs : List CReq) (qs' : Qsvs) (h : standardOp env sg qs oi con gi go = .ok (rs, qs')) :
    prodNames rs = outNames sg oi.op ∧
    ∃ rin rout, rs = rin ++ rout ∧ (∀ r ∈ rin, r.producer = none) ∧ (∀ r ∈ rout, r.producer.isSome = true) ∧
      rin.length = (cslots oi.op.inputs).length := by
  obtain ⟨inIgn, outIgn, rin, rout, g, gO, _, _, hrs, hrin, hrout, _, _⟩ := standardOp_shape env sg qs oi con gi go rs qs' h
  have hrinP : ∀ r ∈ rin, r.producer = none := by
    intro r hr
    obtain ⟨p, _, t, _, hreq⟩ := hrin.mem_right hr
    split at hreq
    · rw [hreq]; rfl
    · exact wrapper_true_noProd env qs oi t g r hreq
  have hroutP : ∀ r ∈ rout, r.producer.isSome = true := by
    intro r hr
    obtain ⟨p, _, t, _, hreq⟩ := hrout.mem_right hr
    split at hreq
    · rw [hreq]; rfl
    · exact wrapper_false_prod env qs oi t gO r hreq
  refine ⟨?_, rin, rout, hrs, hrinP, hroutP, hrin.1.symm⟩
  rw [hrs, prodNames_append, prodNames_nil_of rin hrinP, List.nil_append, prodNames_all rout hroutP]
  unfold outNames
  rw [← cslots_map_fst, List.filterMap_map]
  refine (pointwise_map_eq _ _ _ _ hrout ?_).symm
  intro p r hpr
  obtain ⟨t, hat, hreq⟩ := hpr
  simp only [Function.comp, nameAt, hat]
  congr 1
  split at hreq
  · rw [hreq]; exact (Locality.noQuantReq_name _ _ _).symm
  · exact (Locality.wrapper_name env qs oi t false gO r hreq).symm

theorem mapM_map_eq {α β γ} (f : α → PyM β) (g : α → Option γ) (k : β → γ) :
    ∀ (l : List α) (r : List β), l.mapM f = .ok r → (∀ a b, f a = .ok b → g a = some (k b)) →
      l.filterMap g = r.map k := by
  intro l
  induction l with
  | nil =>
    intro r h _
    simp only [List.mapM_nil, pure, Except.pure, Except.ok.injEq] at h
    subst h; rfl
  | cons a as ih =>
    intro r h hf
    rw [List.mapM_cons] at h
    obtain ⟨b, hb, h⟩ := GraphInv.bind_ok _ _ _ h
    obtain ⟨bs, hbs, h⟩ := GraphInv.bind_ok _ _ _ h
    simp only [pure, Except.pure, Except.ok.injEq] at h
    subst h
    rw [List.filterMap_cons, hf a b hb, List.map_cons, ih bs hbs hf]

theorem noQuantReq_prod (n : String) (o : Int) (b : Bool) : (noQuantReq n o b).producer.isSome = !b := by
  cases b <;> rfl

theorem noQuantOp_prodNames (sg : Subgraph) (op : Op) (opId : Int) (rs : List CReq)
    (h : noQuantOp sg op opId = .ok rs) : prodNames rs = outNames sg op := by
  unfold noQuantOp at h
  obtain ⟨ins, hins, h⟩ := GraphInv.bind_ok _ _ _ h
  obtain ⟨outs, houts, h⟩ := GraphInv.bind_ok _ _ _ h
  simp only [pure, Except.pure, Except.ok.injEq] at h
  subst h
  have hI : ∀ r ∈ ins, r.producer = none := by
    intro r hr
    obtain ⟨a, _, hf⟩ := GraphFrame.mapM_ok _ _ _ hins r hr
    obtain ⟨t, _, hf⟩ := GraphInv.bind_ok _ _ _ hf
    simp only [pure, Except.pure, Except.ok.injEq] at hf
    subst hf; rfl
  have hO : ∀ r ∈ outs, r.producer.isSome = true := by
    intro r hr
    obtain ⟨a, _, hf⟩ := GraphFrame.mapM_ok _ _ _ houts r hr
    obtain ⟨t, _, hf⟩ := GraphInv.bind_ok _ _ _ hf
    simp only [pure, Except.pure, Except.ok.injEq] at hf
    subst hf; rfl
  rw [prodNames_append, prodNames_nil_of ins hI, List.nil_append, prodNames_all outs hO]
  unfold outNames
  refine (mapM_map_eq _ _ _ _ _ houts ?_).symm
  intro a r hf
  obtain ⟨t, ht, hf⟩ := GraphInv.bind_ok _ _ _ hf
  simp only [pure, Except.pure, Except.ok.injEq] at hf
  subst hf
  simp only [nameAt, ht]
  rfl

theorem prodNames_set_sublist (rs : List CReq) (i : Nat) (r : CReq) (hr : r.producer = none) :
    (prodNames (rs.set i r)).Sublist (prodNames rs) := by
  induction rs generalizing i with
  | nil => simp [prodNames]
  | cons a as ih =>
    cases i with
    | zero =>
      simp only [List.set_cons_zero, prodNames, List.filter_cons, hr, Option.isSome_none, Bool.false_eq_true, if_false]
      split
      · exact List.sublist_cons_self _ _
      · exact List.Sublist.refl _
    | succ i =>
      simp only [List.set_cons_succ, prodNames, List.filter_cons]
      split
      · simp only [List.map_cons]
        exact List.Sublist.cons_cons _ (ih i)
      · exact ih i

theorem biasFor_prodNames (env : Env) (sg : Subgraph) (oi : OpInfo) (reqs rs : List CReq) (iIn iW iB : Nat)
    (h : biasFor env sg oi reqs iIn iW iB = .ok rs) : (prodNames rs).Sublist (prodNames reqs) := by
  rcases biasFor_unfold env sg oi reqs rs iIn iW iB h with rfl | ⟨bslot, bt, bp, r, _, _, _, _, _, hmk, _, rfl⟩
  · exact List.Sublist.refl _
  · obtain ⟨xfs, _, hr⟩ := mkReq_spec _ _ _ _ _ _ hmk
    simp only [if_true] at hr
    exact prodNames_set_sublist reqs iB r (by rw [hr])

theorem prodNames_dropLast_snoc (reqs : List CReq) (last last' : CReq) (hl : reqs.getLast? = some last)
    (hn : last'.name = last.name) (hp : last'.producer.isSome = last.producer.isSome) :
    prodNames (reqs.dropLast ++ [last']) = prodNames reqs := by
  have hne : reqs ≠ [] := by intro h; rw [h] at hl; cases hl
  have : reqs = reqs.dropLast ++ [last] := by
    have h1 := List.dropLast_append_getLast hne
    have h2 : reqs.getLast hne = last := by
      rw [List.getLast?_eq_some_getLast hne] at hl
      exact Option.some.inj hl
    rw [h2] at h1
    exact h1.symm
  conv_rhs => rw [this]
  simp only [prodNames_append]
  congr 1
  simp only [prodNames, List.filter_cons, List.filter_nil, hp]
  split <;> simp [hn]

theorem fixedRangeOp_prodNames (env : Env) (sg : Subgraph) (qs : Qsvs) (oi : OpInfo) (sl : Bool) (rs : List CReq) (qs' : Qsvs)
    (h : fixedRangeOp env sg qs oi sl = .ok (rs, qs')) : prodNames rs = outNames sg oi.op := by
  obtain ⟨_, reqs, q, hstd, hcase⟩ := MatParams.fixedRangeOp_spec env sg qs oi sl rs qs' h
  have := (standardOp_prodNames env sg qs oi .none [] [] reqs q hstd).1
  rcases hcase with ⟨rfl, _, _⟩ | ⟨last, a, pr, fp, mm, hl, _, hpr, _, _, rfl, _⟩
  · exact this
  · refine (prodNames_dropLast_snoc reqs last
      { last with producer := some { pr with param := some (.uniform fp none) } } hl rfl ?_).trans this
    rw [hpr]
    rfl

theorem floatCastOp_prodNames (env : Env) (sg : Subgraph) (oi : OpInfo) (iIn iW iB : Nat) (rs : List CReq)
    (hout : oi.op.outputs[0]? ≠ some (-1)) (h : floatCastOp env sg oi iIn iW iB = .ok rs) :
    (prodNames rs).Sublist (outNames sg oi.op) := by
  obtain ⟨sIn, sW, sOut, tin, tw, tout, wd, p, _, _, e3, _, _, htout, _, hrs⟩ := floatCastOp_unfold env sg oi iIn iW iB rs h
  have hne : sOut ≠ -1 := fun hh => hout (hh ▸ e3)
  have hprod : prodNames rs = [tout.name] := by
    rcases hrs with rfl | ⟨b, tb, _, _, _, rfl⟩
    · simp [prodNames, noQuantReq]
    · simp [prodNames, noQuantReq]
  rw [hprod]
  unfold outNames
  cases ho : oi.op.outputs with
  | nil => rw [ho] at e3; cases e3
  | cons a as =>
    rw [ho] at e3
    simp only [List.getElem?_cons_zero, Option.some.injEq] at e3
    subst e3
    rw [List.filter_cons_of_pos (by simpa using hne), List.filterMap_cons]
    simp only [nameAt, htout]
    exact List.Sublist.cons_cons _ (List.nil_sublist _)

/-- **every kind of materialisation emits its producer requests in result-slot order** -/
theorem runKind_prodNames (env : Env) (sg : Subgraph) (qs : Qsvs) (oi : OpInfo) (k : Kind) (rs : List CReq) (qs' : Qsvs)
    (hcast : ∀ a b c, k = .cast a b c → oi.op.outputs[0]? ≠ some (-1))
    (h : runKind env sg qs oi k = .ok (rs, qs')) : (prodNames rs).Sublist (outNames sg oi.op) := by
  cases k with
  | std con gi =>
    rw [(standardOp_prodNames env sg qs oi con gi [] rs qs' h).1]
  | conv =>
    simp only [runKind] at h
    obtain ⟨⟨r, q⟩, hstd, h⟩ := GraphInv.bind_ok _ _ _ h
    obtain ⟨r', hb, h⟩ := GraphInv.bind_ok _ _ _ h
    simp only [pure, Except.pure, Except.ok.injEq, Prod.mk.injEq] at h
    rw [← h.1, ← (standardOp_prodNames env sg qs oi .none [2] [] r q hstd).1]
    exact biasFor_prodNames env sg oi r r' 0 1 2 hb
  | convT =>
    simp only [runKind] at h
    obtain ⟨⟨r, q⟩, hstd, h⟩ := GraphInv.bind_ok _ _ _ h
    split at h
    · cases h
    · obtain ⟨r', hb, h⟩ := GraphInv.bind_ok _ _ _ h
      simp only [pure, Except.pure, Except.ok.injEq, Prod.mk.injEq] at h
      rw [← h.1, ← (standardOp_prodNames env sg qs oi .none [0, 3] [] r q hstd).1]
      exact biasFor_prodNames env sg oi r r' 2 1 3 hb
  | fixed sl =>
    rw [fixedRangeOp_prodNames env sg qs oi sl rs qs' h]
  | cast a b c =>
    simp only [runKind] at h
    obtain ⟨r, hr, h⟩ := GraphInv.bind_ok _ _ _ h
    simp only [pure, Except.pure, Except.ok.injEq, Prod.mk.injEq] at h
    rw [← h.1]
    exact floatCastOp_prodNames env sg oi a b c r (hcast a b c rfl) hr
  | unknown => cases h

/-! ## `updateResults` and producers -/

/-- the entry of name `n` has a producer side -/
def HasProd (res : List (String × CReq)) (n : String) : Prop := ∃ c, Py.dictGet? res n = some c ∧ c.producer.isSome = true

theorem stepF_hasProd (res res' : List (String × CReq)) (r : CReq) (h : stepF res r = .ok res') (n : String)
    (hn : HasProd res' n) : HasProd res n ∨ (n = r.name ∧ r.producer.isSome = true) := by
  obtain ⟨c, hc, hp⟩ := hn
  unfold stepF at h
  cases hd : Py.dictGet? res r.name with
  | none =>
    rw [hd] at h
    simp only [pure, Except.pure, Except.ok.injEq] at h
    subst h
    rw [CalibExact.dictGet?_append] at hc
    cases hdn : Py.dictGet? res n with
    | some v =>
      rw [hdn] at hc
      simp only [Option.some.injEq] at hc
      subst hc
      exact .inl ⟨v, hdn, hp⟩
    | none =>
      rw [hdn] at hc
      simp only [] at hc
      rw [CalibExact.dictGet?_cons] at hc
      split at hc
      · rename_i heq
        simp only [Option.some.injEq] at hc
        subst hc
        exact .inr ⟨heq.symm, hp⟩
      · rw [CalibExact.dictGet?_nil] at hc; cases hc
  | some cur =>
    rw [hd] at h
    simp only [] at h
    split at h
    · cases h
    · simp only [pure, Except.pure, Except.ok.injEq] at h
      subst h
      rw [CalibProofs.dictGet?_dictSet] at hc
      split at hc
      · rename_i heq
        simp only [Option.some.injEq] at hc
        subst hc
        simp only [] at hp
        cases hrp : r.producer with
        | some p => exact .inr ⟨heq.symm, rfl⟩
        | none =>
          rw [hrp] at hp
          simp only [] at hp
          exact .inl ⟨cur, heq ▸ hd, hp⟩
      · exact .inl ⟨c, hc, hp⟩

theorem updateResults_hasProd : ∀ (rs : List CReq) (res res' : List (String × CReq)),
    updateResults res rs = .ok res' → ∀ n, HasProd res' n → HasProd res n ∨ n ∈ prodNames rs := by
  intro rs
  induction rs with
  | nil =>
    intro res res' h n hn
    rw [updateResults_eq] at h
    simp only [List.foldlM_nil, pure, Except.pure, Except.ok.injEq] at h
    subst h; exact .inl hn
  | cons r rs ih =>
    intro res res' h n hn
    rw [updateResults_eq, List.foldlM_cons] at h
    obtain ⟨res1, h1, h⟩ := GraphInv.bind_ok _ _ _ h
    rcases ih res1 res' h n hn with h2 | h2
    · rcases stepF_hasProd res res1 r h1 n h2 with h3 | ⟨h3, h4⟩
      · exact .inl h3
      · refine .inr ?_
        simp only [prodNames, List.filter_cons, h4, if_true, List.map_cons]
        exact List.mem_cons.2 (.inl h3)
    · refine .inr ?_
      simp only [prodNames, List.filter_cons]
      split
      · exact List.mem_cons_of_mem _ h2
      · exact h2

end MatTotal
